"""C04 atomic_save: no partially written destination at any crash point.

Also the shared machinery of C05 (harness/c05.py imports this module): the
recorder that interposes on `boltons.fileutils.os` and on the part-file object,
the forked child that really runs the save (and is really killed with
os._exit at a chosen event), the directory scanner, and the renderer to Coq.

Python only moves data.  Every run of the real code happens in a forked child
inside a private temporary directory; the parent reads the child's recorded
event trace from a pipe and scans the directory with the real `os`.
"""
import json
import os
import shutil
import stat as _stat
import tempfile
import traceback

from common import cnat, cN, clist, cpair, copt, cbool

ID = "C04"
IMPORTS = ("From Boltons Require Import Lib.Prelude Model.C04_Model Spec.C04_Spec Check.C04_Check.")
CASE_TYPE = "c04_case"
VERDICT = "c04_verdict"
EXPLAIN = "c04_explain"
CASES_PER_FILE = 60
CASE_TIMEOUT = 60
TIERS = {"quick": {"n": 450, "search_n": 300}, "thorough": {"n": 9000, "search_n": 2000}}
RULE = ("thorough tier: first a complete grid of 8 flag combinations x 2 permission settings x destination absent/present "
        "x part file absent/stale/hard-linked x 3 body shapes x text/binary (480 cases), "
        "then random cases; one case = one (configuration, initial directory, body, fault schedule) of atomic_save/AtomicSaver, run once "
        "to completion and once more per crash point k (child killed with os._exit immediately before the k-th "
        "state-changing primitive: unlink/open/fdopen/chmod/write/flush/fsync/close/rename/link), the real directory "
        "(names, bytes, modes) scanned after each; a quarter of the cases additionally get 1-3 real SIGKILLs at "
        "arbitrary instants of a slowed-down run (the directory must equal the model's at SOME crash point), 2 per 100 "
        "are re-run under strace and the kernel's view of the directory is compared with the recorder's; initial "
        "directories include stale part files that are hard links of the destination; bodies may end with seek(0) "
        "and may be left by an Exception or a BaseException; non-trivial = the run reached publication (rename/link to the "
        "destination) and at least 6 crash points were really executed; distinct = distinct canonical case hash")
ASSUMPTIONS = [
    "POSIX file-system semantics as modelled in Model/C04_Model.v: rename/link atomically rebind a name, O_CREAT|O_EXCL "
    "fails on an existing name, kill -9 loses user-space buffers but keeps what reached the kernel, power loss keeps "
    "only fsync'ed data, completed directory operations survive (journaling assumption)",
    "part_file (if given) is a plain file name different from the destination's base name; destination and part are "
    "regular files (no symlinks/directories)",
    "the body writes/flushes the file object it is given, may rewind it (seek(0)) when it is done, may close it (misuse) "
    "and may change the working directory; no truncate, no writes after a seek, no access to the paths",
    "the io layer's buffering policy is not modelled: after every write the model is told how many bytes the runtime "
    "pushed to the kernel (measured with fstat); the theorems hold for every such choice",
]
TRUSTED = [
    "Model/C04_Model.v (file system + AtomicSaver program) is hand-written; tied to boltons.fileutils by the "
    "correspondence run: recorded event trace, outcome, and the real directory after the run and after every real kill",
    "harness/c04.py: recorder over fileutils.os / the part-file object, process-wide guard over os.* and builtins.open "
    "in the child (effects on the scenario's directory through other modules are recorded too), serialiser",
    "power-loss clause is proved on the model only (not executable here); kill clause is executed",
]

DEST, PART, OTHER = "data.bin", "data.bin.part", "other.txt"
CUSTOM_PART = "tmp-part"
TMP_ROOT = "/dev/shm" if os.path.isdir("/dev/shm") and os.access("/dev/shm", os.W_OK) else None

ENOENT, EEXIST, EIO, ENOSPC, EPERM, EINVAL, EXDEV, EACCES = 2, 17, 5, 28, 1, 22, 18, 13


import builtins as _builtins
import io as _io
import types as _types

# the real functions, captured before anything is patched: the recorder and the harness's own code in the child
# use these; everything else in the child process goes through the guard installed by install_guard()
_O = _types.SimpleNamespace(open=os.open, unlink=os.unlink, remove=os.remove, rename=os.rename, replace=os.replace,
                            link=os.link, chmod=os.chmod, fchmod=os.fchmod, fsync=os.fsync, fdatasync=os.fdatasync,
                            fdopen=os.fdopen, close=os.close, truncate=os.truncate, symlink=os.symlink,
                            bopen=_builtins.open)


class BodyError(Exception):
    pass


class BodyAbort(BaseException):
    """What Ctrl-C / sys.exit() inside the with-block look like: not an Exception subclass."""


# ---------------------------------------------------------------------------
# case helpers
# ---------------------------------------------------------------------------
def data_of(op):
    """body op ['w', str] or ['w', {'rep': str, 'n': int}] -> str"""
    d = op[1]
    if isinstance(d, dict):
        return d["rep"] * d["n"]
    return d


def retry_body(case):
    """The retry is a well-behaved save of the same content: without the body's misuse of the file object."""
    return [op for op in case["body"] if op[0] != "c"]


def part_name(cfg):
    return CUSTOM_PART if cfg.get("part_file") else PART


def kwargs_of(cfg):
    kw = {}
    # pass a keyword only when it differs from the default in about half of the cases (cfg['explicit'])
    ex = cfg.get("explicit", True)
    if ex or not cfg["overwrite"]:
        kw["overwrite"] = cfg["overwrite"]
    if ex or cfg["overwrite_part"]:
        kw["overwrite_part"] = cfg["overwrite_part"]
    if ex or not cfg["rm_part_on_exc"]:
        kw["rm_part_on_exc"] = cfg["rm_part_on_exc"]
    if cfg["file_perms"] is not None:
        kw["file_perms"] = cfg["file_perms"]
    if ex or cfg["text_mode"]:
        kw["text_mode"] = cfg["text_mode"]
    if cfg.get("buffering", -1) != -1:
        kw["buffering"] = cfg["buffering"]
    if cfg.get("part_file"):
        kw["part_file"] = CUSTOM_PART
    return kw


def fdopen_invalid(cfg):
    """io.open refuses unbuffered text I/O (static fact about the stdlib, trusted)."""
    return bool(cfg["text_mode"]) and cfg.get("buffering", -1) == 0


# ---------------------------------------------------------------------------
# the recorder (lives in the forked child)
# ---------------------------------------------------------------------------
class Ctx:
    def __init__(self, tmpdir, names, crash, sched, wfd):
        self.tmpdir = tmpdir
        self.names = dict(names)          # base name -> token
        self.outside = {}
        self.crash = crash
        self.sched = {}
        for s in sched or []:
            self.sched.setdefault(s[0], []).append(s)
        self.wfd = wfd
        self.tick = 0
        self.trace = []
        self.body_idx = None
        self.appeared = False
        self.fd = None
        self.slow = 0.0
        self.foreign_opens = 0            # files in the scenario's directory opened for writing behind the recorder's back
        self.crash_after_foreign = None   # die right after the j-th such open returned

    def tok(self, path):
        ap = os.path.abspath(os.fspath(path))
        if isinstance(ap, bytes):
            ap = os.fsdecode(ap)
        d, b = os.path.split(ap)
        if os.path.realpath(d) == os.path.realpath(self.tmpdir):
            if b not in self.names:
                self.names[b] = 10 + len([t for t in self.names.values() if t >= 10])
            return self.names[b]
        if ap not in self.outside:
            self.outside[ap] = 100 + len(self.outside)
        return self.outside[ap]

    def dump(self, payload):
        payload = dict(payload, trace=self.trace, appeared=self.appeared, foreign_opens=self.foreign_opens)
        data = json.dumps(payload).encode()
        off = 0
        while off < len(data):
            off += os.write(self.wfd, data[off:off + 65536])

    def event(self, ev, do, on_fault=None, post=None):
        """ev: list describing the primitive (without result).  Crash point,
        scheduled interference, scheduled fault, then the real call."""
        k = self.tick
        if self.slow:
            import time
            time.sleep(self.slow)
        if self.crash is not None and k == self.crash:
            self.dump({"killed_at": k})
            os._exit(0)
        fault = None
        for s in self.sched.get(k, ()):
            if s[1] == "appear":
                dest = os.path.join(self.tmpdir, DEST)
                if not os.path.lexists(dest):
                    with _O.bopen(dest, "wb") as f:
                        f.write(s[2].encode("utf-8"))
                    _O.chmod(dest, s[3])
                    self.appeared = True
            elif s[1] == "fault":
                fault = s[2]
        self.tick = k + 1
        if fault is not None:
            if on_fault:
                on_fault()
            self.trace.append(ev + [fault])
            if fault == EINVAL and ev[0] == "fdopen":
                raise ValueError("injected")
            raise OSError(fault, "injected fault at event %d (%s)" % (k, ev[0]))
        try:
            r = do()
        except OSError as e:
            self.trace.append(ev + [e.errno if e.errno is not None else 999])
            raise
        except ValueError:
            if ev[0] == "fdopen":
                self.trace.append(ev + [EINVAL])
            elif ev[0] in ("write", "flush", "close"):
                self.trace.append(ev + [9])          # "I/O operation on closed file": EBADF in the model
            raise
        if post:
            ev = post(ev)
        self.trace.append(ev + [None])
        return r


class PathProxy:
    def __init__(self, ctx):
        self._ctx = ctx

    def __getattr__(self, name):
        return getattr(os.path, name)


class FileProxy:
    """Wraps the object returned by os.fdopen; every write/flush/close is an event."""

    def __init__(self, ctx, f, fd):
        object.__setattr__(self, "_ctx", ctx)
        object.__setattr__(self, "_f", f)
        object.__setattr__(self, "_fd", fd)

    def __getattr__(self, name):
        return getattr(self._f, name)

    def _disk(self):
        try:
            return os.fstat(self._fd).st_size
        except OSError:
            return 0

    def write(self, data):
        f = self._f
        if isinstance(data, str):
            raw = data.encode(getattr(f, "encoding", None) or "utf-8")
        else:
            raw = bytes(data)
        ev = ["write", self._ctx.body_idx, raw.decode("latin-1")]
        return self._ctx.event(ev, lambda: f.write(data), post=lambda e: e + [self._disk()])

    def writelines(self, lines):
        for l in lines:
            self.write(l)

    def flush(self):
        return self._ctx.event(["flush"], self._f.flush)

    def seek(self, *a):
        # repositioning a buffered/text writer flushes it first: observed as that flush
        return self._ctx.event(["flush"], lambda: self._f.seek(*a))

    def close(self):
        def really_close():
            try:
                return self._f.close()
            finally:
                if self._ctx.fd == self._fd:
                    self._ctx.fd = None       # the number may be reused by an unrelated descriptor from now on

        def on_fault():
            try:
                really_close()
            except Exception:
                pass
        return self._ctx.event(["close"], really_close, on_fault=on_fault)

    def fileno(self):
        return self._f.fileno()

    def __enter__(self):
        return self

    def __exit__(self, *a):
        self.close()

    def __iter__(self):
        return iter(self._f)


class Rec:
    """Stands in for the `os` module inside boltons.fileutils."""

    def __init__(self, ctx):
        self._ctx = ctx
        self.path = PathProxy(ctx)

    def __getattr__(self, name):
        return getattr(os, name)

    def open(self, path, flags, mode=0o777, **kw):
        c = self._ctx
        if not flags & (os.O_WRONLY | os.O_RDWR | os.O_CREAT | os.O_TRUNC | os.O_APPEND):
            return _O.open(path, flags, mode, **kw)      # read-only open (e.g. of the directory): not an event
        excl = bool(flags & os.O_EXCL) and bool(flags & os.O_CREAT)
        trunc = bool(flags & os.O_TRUNC)

        def do():
            fd = _O.open(path, flags, mode, **kw)
            c.fd = fd
            return fd
        return c.event(["open", c.tok(path), excl and not trunc, mode], do)

    def fdopen(self, fd, *a, **kw):
        c = self._ctx

        def on_fault():
            try:
                _O.close(fd)      # io.open closes the descriptor when it fails
            except OSError:
                pass
        f = c.event(["fdopen"], lambda: _O.fdopen(fd, *a, **kw), on_fault=on_fault)
        return FileProxy(c, f, fd)

    def chmod(self, path, mode, **kw):
        c = self._ctx
        return c.event(["chmod", c.tok(path), mode], lambda: _O.chmod(path, mode, **kw))

    def fchmod(self, fd, mode):
        c = self._ctx
        return c.event(["chmod", 1 if fd == c.fd else 999, mode], lambda: _O.fchmod(fd, mode))

    def unlink(self, path, **kw):
        c = self._ctx
        return c.event(["unlink", c.tok(path)], lambda: _O.unlink(path, **kw))

    remove = unlink

    def rename(self, src, dst, **kw):
        c = self._ctx
        return c.event(["rename", c.tok(src), c.tok(dst)], lambda: _O.rename(src, dst, **kw))

    replace = rename

    def link(self, src, dst, **kw):
        c = self._ctx
        return c.event(["link", c.tok(src), c.tok(dst)], lambda: _O.link(src, dst, **kw))

    def fsync(self, fd):
        if fd != self._ctx.fd:
            return _O.fsync(fd)                           # syncing something else (the directory): not an event
        return self._ctx.event(["fsync"], lambda: _O.fsync(fd))

    def fdatasync(self, fd):
        if fd != self._ctx.fd:
            return _O.fdatasync(fd)
        return self._ctx.event(["fsync"], lambda: _O.fdatasync(fd))


# ---------------------------------------------------------------------------
# process-wide guard (child only): whatever touches the scenario's directory WITHOUT going through
# fileutils.os - shutil, builtins.open, another module's `os` - is recorded as the same kind of event, so
# that the trace predicates see it ("no primitive other than the publication ever touches the destination")
# and the process can be killed right after such an open.
# ---------------------------------------------------------------------------
def install_guard(ctx, rec):
    root = os.path.realpath(ctx.tmpdir)

    def inside(path):
        try:
            if isinstance(path, int):
                return False
            ap = os.path.abspath(os.fspath(path))
            if isinstance(ap, bytes):
                ap = os.fsdecode(ap)
            return os.path.realpath(os.path.dirname(ap)).startswith(root)
        except Exception:
            return False

    def after_foreign_open():
        j = ctx.foreign_opens
        ctx.foreign_opens = j + 1
        if ctx.crash_after_foreign is not None and ctx.crash_after_foreign == j:
            ctx.dump({"killed_after_foreign": j})
            os._exit(0)

    def g_bopen(file, mode="r", *a, **kw):
        if inside(file) and any(ch in mode for ch in "wax+"):
            f = ctx.event(["open", ctx.tok(file), "x" in mode, 0o666], lambda: _O.bopen(file, mode, *a, **kw))
            after_foreign_open()
            return f
        return _O.bopen(file, mode, *a, **kw)

    def g_open(path, flags, mode=0o777, **kw):
        if inside(path) and flags & (os.O_WRONLY | os.O_RDWR | os.O_CREAT | os.O_TRUNC | os.O_APPEND):
            fd = rec.open(path, flags, mode, **kw)
            after_foreign_open()
            return fd
        return _O.open(path, flags, mode, **kw)

    def two(name):
        def g(src, dst, **kw):
            if inside(src) or inside(dst):
                return getattr(rec, name)(src, dst, **kw)
            return getattr(_O, name)(src, dst, **kw)
        return g

    def one(name):
        def g(path, *a, **kw):
            if inside(path):
                return getattr(rec, name)(path, *a, **kw)
            return getattr(_O, name)(path, *a, **kw)
        return g

    def g_truncate(path, length):
        if inside(path):
            return ctx.event(["chmod", ctx.tok(path), 0], lambda: _O.truncate(path, length))   # rendered as a touch of that name
        return _O.truncate(path, length)

    _builtins.open = g_bopen
    _io.open = g_bopen
    os.open = g_open
    os.rename = two("rename")
    os.replace = two("replace")
    os.link = two("link")
    os.unlink = one("unlink")
    os.remove = one("remove")
    os.chmod = one("chmod")
    os.truncate = g_truncate


# ---------------------------------------------------------------------------
# one real run in a forked child
# ---------------------------------------------------------------------------
def _drive(fu, cfg, ctx, tmpdir, body, body_exc):
    how = cfg.get("path", "abs")
    if how == "rel":
        os.chdir(tmpdir)
        dest = DEST
    elif how == "rel2":
        os.chdir(os.path.dirname(tmpdir))
        dest = os.path.join(os.path.basename(tmpdir), DEST)
    else:
        dest = os.path.join(tmpdir, DEST)
    kw = kwargs_of(cfg)
    text = cfg["text_mode"]

    def run_body(f):
        for j, op in enumerate(body):
            ctx.body_idx = j
            if op[0] == "w":
                s = data_of(op)
                f.write(s if text else s.encode("utf-8"))
            elif op[0] == "f":
                f.flush()
            elif op[0] == "r":
                f.seek(0)        # rewind after writing (only generated as the last operation of a body)
            elif op[0] == "c":
                f.close()        # the body closes the file object it was given (misuse)
            elif op[0] == "cd":
                os.chdir(os.path.join(tmpdir, SUB))     # the program changes its working directory inside the with-block
        ctx.body_idx = None
        if body_exc:
            raise (BodyAbort() if cfg.get("abort_kind") == "base" else BodyError())

    try:
        api = cfg.get("api", "func")
        if api == "manual":
            saver = fu.AtomicSaver(dest, **kw)
            saver.setup()
            try:
                run_body(saver.part_file)
            except BaseException as e:
                ctx.body_idx = None
                saver.__exit__(type(e), e, e.__traceback__)
                raise
            saver.__exit__(None, None, None)
        else:
            cm = fu.atomic_save(dest, **kw) if api == "func" else fu.AtomicSaver(dest, **kw)
            with cm as f:
                try:
                    run_body(f)
                finally:
                    ctx.body_idx = None
        return ["ok"]
    except (BodyError, BodyAbort):
        return ["body"]
    except OSError as e:
        return ["os", e.errno if e.errno is not None else 999]
    except ValueError:
        if (fdopen_invalid(cfg) or any(op[0] == "c" for op in body)
                or any(s[1] == "fault" and s[2] == EINVAL for ss in ctx.sched.values() for s in ss)):
            return ["value"]
        raise


SUB = "sub"            # a sub-directory the body may chdir into; it may hold a decoy named like the part file


def _names(cfg):
    return {DEST: 0, part_name(cfg): 1, OTHER: 2, SUB + "/" + part_name(cfg): 3}


def is_partlink(init):
    return bool(init.get("partlink")) and init.get("dest") is not None and init.get("part") is not None


def _populate(tmpdir, cfg, init):
    if init.get("sub"):
        os.mkdir(os.path.join(tmpdir, SUB))
        if init.get("decoy") is not None:
            p = os.path.join(tmpdir, SUB, part_name(cfg))
            with open(p, "wb") as f:
                f.write(init["decoy"][0].encode("utf-8"))
            os.chmod(p, init["decoy"][1])
    for key, base in (("dest", DEST), ("part", part_name(cfg)), ("other", OTHER)):
        ent = init.get(key)
        if key == "part" and is_partlink(init):
            # what a save that died between link(part, dest) and unlink(part) leaves: one inode, two names
            os.link(os.path.join(tmpdir, DEST), os.path.join(tmpdir, base))
            continue
        if ent is not None:
            p = os.path.join(tmpdir, base)
            with open(p, "wb") as f:
                f.write(ent[0].encode("utf-8"))
            os.chmod(p, ent[1])


def scan(tmpdir, names):
    out = []
    names = dict(names)
    entries = sorted(os.listdir(tmpdir))
    if SUB in entries and os.path.isdir(os.path.join(tmpdir, SUB)):
        entries.remove(SUB)
        entries += [SUB + "/" + x for x in sorted(os.listdir(os.path.join(tmpdir, SUB)))]
    for b in entries:
        p = os.path.join(tmpdir, b)
        st = os.lstat(p)
        if b not in names:
            names[b] = 10 + len([t for t in names.values() if t >= 10])
        if _stat.S_ISREG(st.st_mode):
            with open(p, "rb") as f:
                content = f.read().decode("latin-1")
        else:
            content = "<not a regular file>"
        out.append([names[b], content, _stat.S_IMODE(st.st_mode)])
    out.sort()
    return out


def run_child(tmpdir, cfg, umask, body, body_exc, sched, crash, slow=0.0, kill_after=None, crash_after_foreign=None):
    """Fork; the child runs the save with the recorder installed and reports
    through a pipe.  Returns the child's report (dict).  With kill_after the
    parent SIGKILLs the child after that many seconds (the child pauses `slow`
    seconds before every event so that the kill lands somewhere inside the save)
    and returns None."""
    rfd, wfd = os.pipe()
    pid = os.fork()
    if pid == 0:
        code = 0
        try:
            os.close(rfd)
            os.umask(umask)
            ctx = Ctx(tmpdir, _names(cfg), crash, sched, wfd)
            ctx.slow = slow
            ctx.crash_after_foreign = crash_after_foreign
            try:
                rec = Rec(ctx)
                install_guard(ctx, rec)          # before the import: `from os import rename` style bindings are guarded too
                import boltons.fileutils as fu
                fu.os = rec
                os.write(wfd, b"R")            # ready: the save starts now (lets the parent time a SIGKILL)
                outcome = _drive(fu, cfg, ctx, tmpdir, body, body_exc)
                ctx.dump({"outcome": outcome})
            except BaseException:
                ctx.dump({"__crash__": traceback.format_exc()[-2000:]})
        except BaseException:
            code = 3
        finally:
            os._exit(code)
    os.close(wfd)
    if kill_after is not None:
        import signal
        import time
        os.read(rfd, 1)                        # wait until the child is about to start the save
        time.sleep(kill_after)
        try:
            os.kill(pid, signal.SIGKILL)
        except ProcessLookupError:
            pass
        os.close(rfd)
        os.waitpid(pid, 0)
        return None
    chunks = []
    while True:
        b = os.read(rfd, 1 << 16)
        if not b:
            break
        chunks.append(b)
    os.close(rfd)
    _, status = os.waitpid(pid, 0)
    if not chunks:
        raise RuntimeError("child reported nothing (status %r)" % (status,))
    data = b"".join(chunks)
    if data[:1] == b"R":
        data = data[1:]
    rep = json.loads(data.decode())
    if "__crash__" in rep:
        raise RuntimeError("unexpected exception escaped the save:\n" + rep["__crash__"])
    return rep


def fresh_dir():
    return tempfile.mkdtemp(prefix="c04_", dir=TMP_ROOT)


def run_once(case, crash=None, keep=False, crash_after_foreign=None):
    """Populate a fresh directory, run (optionally killed at event `crash`),
    scan.  Returns (report, files, tmpdir-or-None)."""
    cfg = case["cfg"]
    tmpdir = fresh_dir()
    try:
        _populate(tmpdir, cfg, case["init"])
        rep = run_child(tmpdir, cfg, case.get("umask", 0o022), case["body"], case.get("body_exc", False),
                        case.get("sched", []), crash, crash_after_foreign=crash_after_foreign)
        files = scan(tmpdir, _names(cfg))
        if keep:
            return rep, files, tmpdir
        return rep, files, None
    finally:
        if not keep:
            shutil.rmtree(tmpdir, ignore_errors=True)


def run_impl(case):
    cfg = case["cfg"]
    rep, files, tmpdir = run_once(case, keep=True)
    try:
        obs = {"run": {"trace": rep["trace"], "outcome": rep["outcome"], "files": files,
                       "intruded": bool(rep.get("appeared"))}, "crashes": [], "retry": None}
        if case.get("retry"):
            rep2 = run_child(tmpdir, cfg, case.get("umask", 0o022), retry_body(case), False, [], None)
            obs["retry"] = {"trace": rep2["trace"], "outcome": rep2["outcome"], "files": scan(tmpdir, _names(cfg))}
    finally:
        shutil.rmtree(tmpdir, ignore_errors=True)
    nev = len(rep["trace"])
    crash = case.get("crash")
    ks = list(range(nev + 1)) if crash == "all" else list(crash or [])
    for k in ks:
        if k >= nev:
            # "after the last event": the process has nothing left to do; same state as the full run
            obs["crashes"].append([k, files])
            continue
        repk, filesk, _ = run_once(case, crash=k)
        if repk.get("killed_at") != k or repk["trace"] != rep["trace"][:k]:
            raise RuntimeError("non-deterministic run: crash run %d diverges from the full run: %r vs %r"
                               % (k, repk, rep["trace"][:k]))
        obs["crashes"].append([k, filesk])
    # the code opened files of the scenario's directory for writing behind the recorder's back (shutil, builtins.open):
    # kill it right after each such open and look at the directory (judged like a kill at an arbitrary instant)
    obs["asyncs"] = []
    for j in range(rep.get("foreign_opens", 0)):
        _, filesj, _ = run_once(case, crash_after_foreign=j)
        obs["asyncs"].append(filesj)
    if case.get("strace"):
        obs["strace"] = strace_check(case)        # raises on a mismatch (fail closed)
    # SIGKILL at arbitrary instants (fractions of the slowed-down run's duration)
    for frac in case.get("async", []):
        slow = 0.002
        tmpdir = fresh_dir()
        try:
            _populate(tmpdir, cfg, case["init"])
            run_child(tmpdir, cfg, case.get("umask", 0o022), case["body"], case.get("body_exc", False),
                      case.get("sched", []), None, slow=slow, kill_after=frac * (nev + 1) * (slow + 0.0002))
            obs["asyncs"].append(scan(tmpdir, _names(cfg)))
        finally:
            shutil.rmtree(tmpdir, ignore_errors=True)
    return obs


# ---------------------------------------------------------------------------
# strace cross-check of the recorder (a sample of runs)
# ---------------------------------------------------------------------------
STRACE = "/usr/bin/strace"
_SYSCALLS = "openat,open,creat,unlink,unlinkat,rename,renameat,renameat2,link,linkat,chmod,fchmodat,fchmod,fsync,fdatasync,write,pwrite64,writev,truncate,ftruncate"
_KIND = {"openat": "open", "open": "open", "creat": "open", "unlink": "unlink", "unlinkat": "unlink",
         "rename": "rename", "renameat": "rename", "renameat2": "rename", "link": "link", "linkat": "link",
         "chmod": "chmod", "fchmodat": "chmod", "fchmod": "chmod", "fsync": "fsync", "fdatasync": "fsync",
         "truncate": "truncate", "ftruncate": "truncate"}


def strace_check(case):
    """Run the save once more under `strace -f -y`, with the recorder installed, and compare what the
    kernel saw in the scenario's directory with what the recorder recorded: same sequence of
    create/unlink/rename/link/chmod/fsync calls (with success/failure) and the same number of bytes
    written to the part file.  Raises on any difference (fail closed).  Returns a small summary."""
    import re
    import subprocess
    import sys
    assert not case.get("sched"), "strace cross-check is for runs without injected faults"
    work = tempfile.mkdtemp(prefix="c04st_", dir=TMP_ROOT)
    try:
        cf = os.path.join(work, "case.json")
        with open(cf, "w") as f:
            json.dump(case, f)
        out = os.path.join(work, "strace.txt")
        env = dict(os.environ, PYTHONPATH=os.pathsep.join(sys.path), PYTHONDONTWRITEBYTECODE="1")
        p = subprocess.run([STRACE, "-f", "-y", "-s", "0", "-e", "trace=" + _SYSCALLS, "-o", out,
                            sys.executable, os.path.abspath(__file__), "--strace-runner", cf],
                           stdout=subprocess.PIPE, stderr=subprocess.PIPE, text=True, timeout=50, env=env)
        if p.returncode != 0:
            raise RuntimeError("strace runner failed: %s" % p.stderr[-800:])
        rep = json.loads(p.stdout.strip().splitlines()[-1])
        key = os.path.basename(rep["tmpdir"])
        kernel, written = [], 0
        kview = []          # the kernel's view of the part file, for the Spec's kernel scan
        part_base = part_name(case["cfg"])
        pids = []
        for line in open(out, errors="replace"):
            m = re.match(r"^(\d+)\s+(\w+)\((.*)\)\s+=\s+(-?\d+)", line)
            if not m:
                continue
            pid, name, args, ret = m.group(1), m.group(2), m.group(3), int(m.group(4))
            if pid not in pids:
                pids.append(pid)
            if pid == pids[0]:
                continue                 # the runner itself (populate/scan/cleanup)
            if key not in line and (name in ("write", "pwrite64", "writev", "fsync", "fdatasync", "fchmod", "ftruncate")
                                    or '"/' in args):
                continue                 # a descriptor or an absolute path outside the scenario's directory
                                         # (relative paths resolve against the scenario's directory)
            if name in ("write", "pwrite64", "writev"):
                if ret > 0:
                    written += ret
                    kview.append(["write", ret])
                continue
            if name in ("openat", "open") and not re.search(r"O_CREAT|O_WRONLY|O_RDWR|O_TRUNC|O_APPEND", args):
                continue                 # read-only open
            if name in ("fsync", "fdatasync") and re.search(r"<[^>]*%s>" % re.escape(key), args):
                continue                 # syncing the directory itself (not an event of the recorder either)
            kernel.append([_KIND[name], ret >= 0])
            if ret >= 0:
                kind = _KIND[name]
                if kind == "open":
                    kview.append(["create", "O_EXCL" in args])
                elif kind == "fsync":
                    kview.append(["fsync"])
                elif kind in ("rename", "link") and re.search(r'%s"(, \d+)?$' % re.escape(DEST), args.strip()):
                    kview.append(["publish"])
                else:
                    kview.append(["other"])
        recorded = [[e[0], e[-1] is None] for e in rep["trace"] if e[0] in ("open", "unlink", "rename", "link", "chmod", "fsync")]
        rec_written = sum(len(e[2].encode("latin-1")) for e in rep["trace"] if e[0] == "write" and e[-1] is None)
        if kernel != recorded or (written != rec_written and rep["outcome"][0] == "ok"):
            raise RuntimeError("strace cross-check: the kernel saw %r (%d bytes written) but the recorder recorded %r (%d bytes)"
                               % (kernel, written, recorded, rec_written))
        return {"syscalls_matched": len(kernel), "bytes_written": written, "kernel": kview}
    finally:
        shutil.rmtree(work, ignore_errors=True)


def _strace_runner(casefile):
    import sys
    case = json.load(open(casefile))
    cfg = case["cfg"]
    tmpdir = fresh_dir()
    try:
        _populate(tmpdir, cfg, case["init"])
        rep = run_child(tmpdir, cfg, case.get("umask", 0o022), case["body"], case.get("body_exc", False), [], None)
        print(json.dumps({"tmpdir": tmpdir, "trace": rep["trace"], "outcome": rep["outcome"]}))
    finally:
        shutil.rmtree(tmpdir, ignore_errors=True)


# ---------------------------------------------------------------------------
# rendering to Coq
# ---------------------------------------------------------------------------
class Table:
    """Byte strings are rendered once: `let tN := [..] in` and later uses are
    tN or (firstn len tN).  Pure data compression; Coq sees the bytes."""

    def __init__(self):
        self.entries = []

    def ref(self, s):
        b = s.encode("latin-1") if isinstance(s, str) else bytes(s)
        if len(b) <= 3:
            return clist(cN(x) for x in b)
        for i, e in enumerate(self.entries):
            if e == b:
                return "t%d" % i
            if e.startswith(b):
                return "(firstn %d t%d)" % (len(b), i)
        for i, e in enumerate(self.entries):
            if b.startswith(e) and not any(o.startswith(e) and o != e for o in self.entries):
                pass
        self.entries.append(b)
        return "t%d" % (len(self.entries) - 1)

    def wrap(self, term):
        pre = "".join("let t%d : list N := %s in " % (i, clist(cN(x) for x in e)) for i, e in enumerate(self.entries))
        return "(" + pre + term + ")" if pre else term


def utf8(s):
    return s.encode("utf-8")


def c_err(e):
    return copt(None if e is None else cnat(min(e, 999)))


def c_event(ev, tb):
    k, err = ev[0], ev[-1]
    if k == "unlink":
        t = "EUnlink %s" % cnat(ev[1])
    elif k == "open":
        t = "EOpen %s %s %s" % (cnat(ev[1]), cbool(ev[2]), cN(ev[3]))
    elif k == "fdopen":
        t = "EFdopen"
    elif k == "chmod":
        t = "EChmod %s %s" % (cnat(ev[1]), cN(ev[2]))
    elif k == "write":
        # a failed write has no measured size: use the value the body was rendered with
        disk = ev[3] if err is None else getattr(tb, "disk_fill", {}).get(ev[1], 0)
        t = "EWrite %s %s" % (tb.ref(ev[2]), cN(disk))
    elif k == "flush":
        t = "EFlush"
    elif k == "fsync":
        t = "EFsync"
    elif k == "close":
        t = "EClose"
    elif k == "rename":
        t = "ERename %s %s" % (cnat(ev[1]), cnat(ev[2]))
    elif k == "link":
        t = "ELink %s %s" % (cnat(ev[1]), cnat(ev[2]))
    else:
        raise ValueError("unknown event %r" % (ev,))
    return "(%s, %s)" % (t, c_err(err))


def c_outcome(o):
    if o[0] == "ok":
        return "OOk"
    if o[0] == "body":
        return "(ORaise (OtherExn 1%nat))"
    if o[0] == "value":
        return "(ORaise ValueError)"
    if o[0] == "os":
        return "(ORaise (OSErr %s))" % cnat(min(o[1], 999))
    raise ValueError(o)


def c_files(files, tb):
    return clist("(%s, (%s, %s))" % (cnat(t), tb.ref(c), cN(m)) for t, c, m in files)


def c_cfg(cfg):
    return "(mkCfg %s %s %s %s %s 0%%nat 1%%nat)" % (
        cbool(cfg["overwrite"]), cbool(cfg["overwrite_part"]), cbool(cfg["rm_part_on_exc"]),
        copt(None if cfg["file_perms"] is None else cN(cfg["file_perms"])), cbool(fdopen_invalid(cfg)))


def c_init(case, tb):
    out = []
    for key, tok in (("dest", 0), ("part", 1), ("other", 2), ("decoy", 3)):
        ent = case["init"].get(key) if (key != "decoy" or case["init"].get("sub")) else None
        if ent is not None:
            out.append("(%s, (%s, %s))" % (cnat(tok), tb.ref(utf8(ent[0])), cN(ent[1])))
    return clist(out)


def c_body(case, trace, tb, body=None):
    """Body ops with the measured disk size after each write (the buffering
    oracle): taken from the write event tagged with the body index."""
    disk = {}
    for ev in trace:
        if ev[0] == "write" and ev[1] is not None and ev[-1] is None:
            disk[ev[1]] = ev[3]
    ops = []
    tb.disk_fill = {}
    vl = bl = 0          # bytes in the kernel / still buffered, to give never-executed writes an in-range value
    for j, op in enumerate(case["body"] if body is None else body):
        if op[0] == "cd":
            continue             # changing the working directory is an action of the environment: no file-system effect
        if op[0] == "c":
            ops.append("BClose")
            vl, bl = vl + bl, 0
            continue
        if op[0] == "w":
            n = len(utf8(data_of(op)))
            k = disk.get(j)
            if k is None or not (vl <= k <= vl + bl + n):
                k = vl if k is None else k        # not executed: "nothing pushed"; executed: keep what was measured
            ops.append("BWrite %s %s" % (tb.ref(utf8(data_of(op))), cN(k)))
            tb.disk_fill[j] = k
            vl, bl = k, max(vl + bl + n - k, 0)
        else:
            ops.append("BFlush")
            vl, bl = vl + bl, 0
    return clist(ops)


def c_sched(case, tb):
    out = []
    for s in case.get("sched", []):
        if s[1] == "fault":
            out.append("(%s, AFault %s)" % (cnat(s[0]), cnat(s[2])))
        else:
            out.append("(%s, AAppear %s %s)" % (cnat(s[0]), tb.ref(utf8(s[2])), cN(s[3])))
    return clist(out)


def c_trace(trace, tb):
    # the body index tag is harness bookkeeping, not part of the observation
    return clist(c_event(ev, tb) for ev in trace)


def c_runobs(r, tb):
    return "(mkRun %s %s %s %s)" % (c_trace(r["trace"], tb), c_outcome(r["outcome"]), c_files(r["files"], tb),
                                    cbool(r.get("intruded", False)))


def case_term(case, obs, tb):
    # register the long strings first so that prefixes refer to them
    new = utf8("".join(data_of(op) for op in case["body"] if op[0] == "w"))
    if len(new) > 3:
        tb.ref(new)
    return "(mkCase %s %s %s %s %s %s %s %s %s %s %s)" % (
        c_cfg(case["cfg"]), cN(case.get("umask", 0o022)), c_init(case, tb), cbool(is_partlink(case["init"])),
        c_body(case, obs["run"]["trace"], tb), cbool(case.get("body_exc", False)), c_sched(case, tb),
        c_runobs(obs["run"], tb),
        clist("(%s, %s)" % (cnat(k), c_files(f, tb)) for k, f in obs["crashes"]),
        clist(c_files(f, tb) for f in obs.get("asyncs", [])),
        c_kernel(obs.get("strace")))


def c_kernel(st):
    if not st:
        return "None"
    out = []
    for k in st["kernel"]:
        if k[0] == "create":
            out.append("KCreate %s" % cbool(k[1]))
        elif k[0] == "write":
            out.append("KWrite %s" % cN(k[1]))
        elif k[0] == "fsync":
            out.append("KFsync")
        elif k[0] == "publish":
            out.append("KPublish")
        else:
            out.append("KOther")
    return "(Some %s)" % clist(out)


def to_coq(case, obs):
    tb = Table()
    return tb.wrap(case_term(case, obs, tb))


# ---------------------------------------------------------------------------
# translator (T): a fixed grid of scenarios is run on the CURRENT source at build time; the recorded traces,
# outcomes and directories become coq/Gen/C04_Gen.v, and Proofs/C04_GenCheck.v proves (vm_compute) that the
# model's program produces exactly each recorded trace/outcome/directory (gen_trace = save cfg body) and that
# each satisfies the Spec's trace predicates.  A source change that alters any of them breaks that proof
# obligation before a single random case is generated.
# ---------------------------------------------------------------------------
def gen_grid():
    bodies = [[["w", "hello"], ["w", " world"]], [["w", "ab"], ["f"], ["w", "tail\n"], ["r"]]]
    for ow in (True, False):
        for owp in (True, False):
            for rm in (True, False):
                for dest in (False, True):
                    for bi, body in enumerate(bodies):
                        init = {"other": ["bystander", 0o644]}
                        if dest:
                            init["dest"] = ["OLD", 0o640]
                        if bi == 1:
                            init["part"] = ["stale part", 0o600]
                        cfg = {"overwrite": ow, "overwrite_part": owp, "rm_part_on_exc": rm,
                               "file_perms": (0o600 if bi else None), "text_mode": bool(bi), "buffering": -1,
                               "part_file": None, "api": "func", "path": "abs", "explicit": True, "abort_kind": "exc"}
                        yield {"cfg": cfg, "umask": 0o022, "init": init, "body": body, "body_exc": False,
                               "sched": [], "crash": [0, 3, 6, 9], "retry": False}
    # eight failure paths: an injected error at flush / fsync / close / publication, both publication styles
    for ow in (True, False):
        for back in (3, 2, 1, 0):
            cfg = {"overwrite": ow, "overwrite_part": False, "rm_part_on_exc": True, "file_perms": None,
                   "text_mode": False, "buffering": -1, "part_file": None, "api": "func", "path": "abs",
                   "explicit": True, "abort_kind": "exc"}
            case = {"cfg": cfg, "umask": 0o022, "init": ({"dest": ["OLD", 0o640]} if ow else {}),
                    "body": [["w", "hello"], ["w", " world"]], "body_exc": False, "sched": [], "retry": False}
            k = publish_index(case) - back            # flush, fsync, close, and the publication itself (EXDEV)
            case["sched"] = [[k, "fault", EXDEV if back == 0 else EIO]]
            case["crash"] = [k, k + 1, k + 2]
            yield case


def translators(repo):
    terms = []
    for case in gen_grid():
        obs = run_impl(case)                      # any exception propagates: fail closed
        terms.append(to_coq(case, obs))
    if len(terms) != 40:
        raise RuntimeError("grid changed size")
    text = ("(* generated by harness/c04.py from the current source of boltons.fileutils: do not edit *)\n"
            + IMPORTS + "\n"
            + "".join("Definition g%d : c04_case := %s.\n" % (i, t) for i, t in enumerate(terms))
            + "Definition gen_cases : list c04_case := [%s].\n" % "; ".join("g%d" % i for i in range(len(terms))))
    return {"C04_Gen": text}


# ---------------------------------------------------------------------------
# generation
# ---------------------------------------------------------------------------
SMALL = ["a", "bc", "hello", "x\ny\n", "été", "—dash", "0123456789", "line\r\n", ""]


def gen_body(rng, tier, big_ok=True):
    style = rng.choice(["none", "one", "one", "many", "many", "overbuf", "flushes", "big"])
    if style == "big" and not big_ok:
        style = "many"
    if style != "none" and style != "big" and rng.random() < 0.12:
        # the body rewinds its w+ file when it is done (e.g. after reading it back)
        return gen_body_plain(rng, tier, style) + [["r"]]
    return gen_body_plain(rng, tier, style)


def gen_body_plain(rng, tier, style):
    if style == "none":
        return []
    if style == "one":
        return [["w", rng.choice(SMALL)]]
    if style == "many":
        return [["w", rng.choice(SMALL)] for _ in range(rng.randint(2, 6))]
    if style == "overbuf":
        return [["w", {"rep": rng.choice(["ab", "xyz", "é"]), "n": rng.randint(5, 30)}] for _ in range(rng.randint(1, 3))] + \
               [["w", rng.choice(SMALL)]]
    if style == "flushes":
        out = []
        for _ in range(rng.randint(2, 5)):
            out.append(["w", rng.choice(SMALL)])
            if rng.random() < 0.5:
                out.append(["f"])
        return out
    # big: more than io.DEFAULT_BUFFER_SIZE in total, rendered once thanks to the table
    return [["w", {"rep": "0123456789abcdef", "n": 300}], ["w", "tail"], ["w", {"rep": "Z", "n": rng.choice([3000, 5000])}]]


_SPECIAL = None


def special_bits_ok():
    """Can this user give a file setuid/setgid/sticky bits that survive chmod + write + rename? (probe, cached)"""
    global _SPECIAL
    if _SPECIAL is None:
        d = tempfile.mkdtemp(prefix="c04probe_", dir=TMP_ROOT)
        try:
            p = os.path.join(d, "x")
            fd = os.open(p, os.O_RDWR | os.O_CREAT | os.O_EXCL, 0o644)
            os.chmod(p, 0o7755)
            os.write(fd, b"abc")
            os.fsync(fd)
            os.close(fd)
            os.rename(p, p + "2")
            _SPECIAL = _stat.S_IMODE(os.stat(p + "2").st_mode) == 0o7755
        except OSError:
            _SPECIAL = False
        finally:
            shutil.rmtree(d, ignore_errors=True)
    return _SPECIAL


def dest_modes():
    modes = [0o644, 0o600, 0o664, 0o755, 0o640]
    if special_bits_ok():
        modes += [0o4755, 0o2644, 0o1644, 0o6750, 0o7700]      # setuid / setgid / sticky: all 12 bits of S_IMODE
    return modes


_UNREADABLE = None


def unreadable_ok():
    """Can this user still read a file whose mode denies it (root)?  The directory scan needs that (probe, cached)."""
    global _UNREADABLE
    if _UNREADABLE is None:
        d = tempfile.mkdtemp(prefix="c04probe_", dir=TMP_ROOT)
        try:
            p = os.path.join(d, "x")
            with open(p, "wb") as f:
                f.write(b"abc")
            os.chmod(p, 0)
            with open(p, "rb") as f:
                _UNREADABLE = f.read() == b"abc"
        except OSError:
            _UNREADABLE = False
        finally:
            shutil.rmtree(d, ignore_errors=True)
    return _UNREADABLE


def gen_perms(rng):
    """Explicit file_perms: not given (1/3), ordinary values, and boundary values - 0 (falsy!), single bits, the
    value the umask would give anyway ("default", resolved once the umask is drawn), all twelve bits."""
    r = rng.random()
    if r < 0.34:
        return None
    if r < 0.64:
        return rng.choice([0o600, 0o644, 0o640, 0o444 | 0o200])
    choices = ["default", 0o600, 0o666]
    if unreadable_ok():
        choices += [0, 0, 0o400, 0o200, 0o100, 0o040, 0o004, 0o001, 0o007, 0o070]
    if special_bits_ok():
        choices += [0o2640, 0o4000, 0o2000, 0o1000, 0o7777, 0o4755]
    return rng.choice(choices)


def resolve_perms(cfg, umask):
    if cfg.get("file_perms") == "default":
        cfg["file_perms"] = 0o666 & ~umask
    return cfg


def gen_cfg(rng):
    text = rng.random() < 0.4
    body_big = False
    buffering = rng.choice([-1, -1, -1, 16, 64, 0 if not text else 1, 4096])
    return {
        "overwrite": rng.random() < 0.7,
        "overwrite_part": rng.random() < 0.4,
        "rm_part_on_exc": rng.random() < 0.7,
        "file_perms": gen_perms(rng),
        "text_mode": text,
        "buffering": buffering,
        "part_file": rng.choice([None, None, "custom"]),
        "api": rng.choice(["func", "class", "manual"]),
        "path": rng.choice(["abs", "abs", "rel", "rel2"]),
        "explicit": rng.random() < 0.5,
        "abort_kind": rng.choice(["exc", "base"]),
    }


def gen_init(rng, cfg, want_dest=None, want_part=None):
    init = {}
    has_dest = rng.random() < 0.6 if want_dest is None else want_dest
    if has_dest:
        init["dest"] = [rng.choice(["OLD", "old content\n", "", "previous édition"]), rng.choice(dest_modes())]
    has_part = rng.random() < 0.15 if want_part is None else want_part
    if has_part:
        if has_dest and rng.random() < 0.35:
            init["part"] = list(init["dest"])        # hard link of the destination: same bytes, same mode
            init["partlink"] = True
        else:
            init["part"] = [rng.choice(["stale part", "", "PARTIAL"]), rng.choice([0o644, 0o600])]
    if rng.random() < 0.5:
        init["other"] = ["bystander", 0o644]
    if rng.random() < 0.15:
        # a sub-directory the body will chdir into; mostly with a decoy named like our part file
        init["sub"] = True
        if rng.random() < 0.6:
            init["decoy"] = [rng.choice(["FOREIGN PART", ""]), rng.choice([0o600, 0o644])]
    return init


def grid_cases():
    """A small complete grid (thorough tier): every flag combination x permissions x destination x part file
    (absent / stale / hard link of the destination) x body shape x mode, every crash point of each."""
    bodies = [[], [["w", "hello"]], [["w", "ab"], ["f"], ["w", "line\n"], ["w", "tail"], ["r"]]]
    for ow in (True, False):
        for owp in (True, False):
            for rm in (True, False):
                for perms in (None, 0o600):
                    for dest in (False, True):
                        for part in ("absent", "stale", "link"):
                            if part == "link" and not dest:
                                continue
                            for bi, body in enumerate(bodies):
                                for text in (False, True):
                                    init = {}
                                    if dest:
                                        init["dest"] = ["OLD", 0o640]
                                    if part == "stale":
                                        init["part"] = ["stale part", 0o600]
                                    elif part == "link":
                                        init["part"] = list(init["dest"])
                                        init["partlink"] = True
                                    cfg = {"overwrite": ow, "overwrite_part": owp, "rm_part_on_exc": rm, "file_perms": perms,
                                           "text_mode": text, "buffering": -1, "part_file": None, "api": "func",
                                           "path": "abs", "explicit": True, "abort_kind": "exc"}
                                    yield {"cfg": cfg, "umask": 0o022, "init": init, "body": body, "body_exc": False,
                                           "sched": [], "crash": "all", "retry": False, "grid": True}


def misuse(rng, body):
    """The body closes the file object it was given, somewhere (then any later write raises ValueError, and so
    does the flush in __exit__)."""
    body = [op for op in body if op[0] != "r"]
    body.insert(rng.randint(0, len(body)), ["c"])
    return body


def publish_index(case):
    """Index of the event that publishes (rename, or link) when nothing fails before."""
    cfg, init = case["cfg"], case["init"]
    k = 2                                             # open, fdopen
    if cfg["overwrite_part"] and init.get("part") is not None:
        k += 1                                        # unlink of the stale part file
    if cfg["file_perms"] is not None or init.get("dest") is not None:
        k += 1                                        # chmod
    k += len([op for op in case["body"] if op[0] in ("w", "f", "r", "c")])
    return k + 3                                      # flush, fsync, close


PUBLISH_ERRNOS = [EXDEV, EPERM, EIO, EACCES, ENOSPC, 30]     # 30 = EROFS


def generate(rng, tier, n):
    i = 0
    if tier == "thorough":
        for case in grid_cases():
            if i >= n:
                return
            i += 1
            yield case
    while i < n:
        cfg = gen_cfg(rng)
        big_budget = (i % 100 == 7)
        body = gen_body(rng, tier, big_ok=big_budget)
        if not big_budget and any(isinstance(op[1], dict) and op[1]["n"] > 100 for op in body if op[0] == "w"):
            continue
        # mostly the regime in which the save goes through (dest may be overwritten, no stale part file)
        r = rng.random()
        if r < 0.75:
            init = gen_init(rng, cfg, want_part=(cfg["overwrite_part"] and rng.random() < 0.3))
            if not cfg["overwrite"]:
                init.pop("dest", None)
        else:
            init = gen_init(rng, cfg)
        if init.get("sub"):
            body = list(body)
            body.insert(rng.randint(0, max(0, len(body) - (1 if body and body[-1][0] == "r" else 0))), ["cd"])
        if rng.random() < 0.06:
            body = misuse(rng, body)
        umask = rng.choice([0o022, 0o022, 0o077, 0, 0o027])
        resolve_perms(cfg, umask)
        case = {"cfg": cfg, "umask": umask, "init": init, "body": body,
                "body_exc": rng.random() < 0.12, "sched": [], "crash": "all", "retry": False}
        r2 = rng.random()
        if r2 < 0.12:
            # crash sweep over a run that also suffers a fault
            case["sched"] = [[rng.randint(0, 9), "fault", rng.choice([EIO, ENOSPC, EPERM])]]
        elif r2 < 0.24 and not case["body_exc"]:
            # the PUBLISHING step itself fails (cross-device, permission, ...): every crash point of whatever the
            # code does next
            k = publish_index(case) + (1 if (not cfg["overwrite"] and rng.random() < 0.4) else 0)
            case["sched"] = [[k, "fault", rng.choice(PUBLISH_ERRNOS)]]
        if big_budget:
            case["crash"] = sorted(set(rng.sample(range(0, 12), 5)))
        elif not case["sched"] and not init.get("sub") and i % 100 in (11, 57):
            case["strace"] = True          # cross-check the recorder against the kernel's view on this run
        elif rng.random() < (0.25 if tier == "quick" else 0.5):
            # a few real SIGKILLs at arbitrary instants of a slowed-down run
            case["async"] = [round(rng.random(), 3) for _ in range(rng.randint(1, 3))]
        i += 1
        yield case


# ---------------------------------------------------------------------------
def corrupt(case, obs):
    """Wrong observations for the canary: a crash point at which the
    destination holds a truncated new content / a lost destination."""
    import copy
    new = "".join(data_of(op) for op in case["body"] if op[0] == "w").encode("utf-8").decode("latin-1")
    bad = copy.deepcopy(obs)
    for k, files in bad["crashes"]:
        for f in files:
            if f[0] == 0:
                f[1] = (new[:-1] if f[1] == new and new else f[1] + "?")
                return bad
    if bad["crashes"]:
        bad["crashes"][0][1].append([0, "??", 0o644])
        bad["crashes"][0][1].sort()
        return bad
    return None


def published(obs):
    return any(ev[0] in ("rename", "link") and ev[-1] is None and ev[2] == 0 for ev in obs["run"]["trace"])


def nontrivial(case, obs):
    return published(obs) and len([1 for k, _ in obs["crashes"] if k < len(obs["run"]["trace"])]) >= 6


def sample(case, obs):
    return {"cfg": case["cfg"], "init": case["init"], "body": [op if not isinstance(op[1:2] and op[1], dict) else op for op in case["body"]][:4],
            "trace": [[e[0], e[-1]] for e in obs["run"]["trace"]], "outcome": obs["run"]["outcome"],
            "dest_after_each_kill": [[k, [f[1][:20] for f in files if f[0] == 0]] for k, files in obs["crashes"]][:30]}


def distribution(d, case, obs):
    def bump(key, sub):
        d.setdefault(key, {})
        d[key][sub] = d[key].get(sub, 0) + 1
    cfg = case["cfg"]
    bump("outcome", "/".join(str(x) for x in obs["run"]["outcome"]))
    bump("events_per_run", str(len(obs["run"]["trace"])))
    bump("flags", "ow=%d owp=%d rm=%d" % (cfg["overwrite"], cfg["overwrite_part"], cfg["rm_part_on_exc"]))
    bump("mode", ("text" if cfg["text_mode"] else "bin") + " buf=%s" % cfg.get("buffering", -1))
    bump("api", cfg.get("api", "func") + "/" + cfg.get("path", "abs"))
    if case.get("grid"):
        d["grid_cases"] = d.get("grid_cases", 0) + 1
    if case.get("body_exc"):
        bump("abort_kind", cfg.get("abort_kind", "exc"))
    bump("perms", str(cfg["file_perms"]))
    bump("init", "dest=%d part=%d%s" % ("dest" in case["init"], "part" in case["init"],
                                        " (hard link)" if is_partlink(case["init"]) else ""))
    bump("writes", str(min(len([o for o in case["body"] if o[0] == "w"]), 6)))
    if any(o[0] == "c" for o in case["body"]):
        d["body_closes_its_file"] = d.get("body_closes_its_file", 0) + 1
    if any(o[0] == "cd" for o in case["body"]):
        bump("chdir_in_body", cfg.get("path", "abs") + (" +decoy" if case["init"].get("decoy") else ""))
    d["kills"] = d.get("kills", 0) + len([1 for k, _ in obs["crashes"] if k < len(obs["run"]["trace"])])
    d["published"] = d.get("published", 0) + (1 if published(obs) else 0)
    if obs.get("strace"):
        d["strace_cross_checked_runs"] = d.get("strace_cross_checked_runs", 0) + 1
        d["strace_syscalls_matched"] = d.get("strace_syscalls_matched", 0) + obs["strace"]["syscalls_matched"]
    d["async_sigkills"] = d.get("async_sigkills", 0) + len(obs.get("asyncs", []))
    d["async_sigkills_midway"] = d.get("async_sigkills_midway", 0) + len(
        [1 for f in obs.get("asyncs", []) if f != obs["run"]["files"] and f != (obs["crashes"][0][1] if obs["crashes"] else None)])
    vis = 0
    for k, files in obs["crashes"]:
        for f in files:
            if f[0] == 1 and f[1]:
                vis += 1
    d["kills_with_nonempty_part_file"] = d.get("kills_with_nonempty_part_file", 0) + vis


def shrink(case):
    body = case["body"]
    for i in range(len(body)):
        c = dict(case)
        c["body"] = body[:i] + body[i + 1:]
        yield c
    if isinstance(case.get("crash"), list) and len(case["crash"]) > 1:
        for k in case["crash"]:
            c = dict(case)
            c["crash"] = [k]
            yield c
    elif case.get("crash") == "all":
        for k in range(0, 16):
            c = dict(case)
            c["crash"] = [k]
            yield c
    for key in ("other", "part"):
        if key in case["init"]:
            c = dict(case)
            c["init"] = {k: v for k, v in case["init"].items() if k != key}
            yield c
    if case.get("sched"):
        c = dict(case)
        c["sched"] = []
        yield c


if __name__ == "__main__":
    import sys
    if len(sys.argv) == 3 and sys.argv[1] == "--strace-runner":
        _strace_runner(sys.argv[2])
